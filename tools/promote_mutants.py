"""Promote candidate mutants (dirs with patch.diff, demo.py, notes.md) to seeded/<id>/ with a meta.json:
confirm each independently of the checks (scratch git worktree of /repo HEAD under the system temp dir: demo passes on the
clean tree; with the patch the full suite passes and the demo fails), then run all 17 checks on a scratch copy with the
patch and record what fired.  usage: python3 tools/promote_mutants.py <candidates-dir> <round> [ids...]"""
import json, os, re, shutil, subprocess, sys, tempfile
from concurrent.futures import ThreadPoolExecutor
from pathlib import Path

VERIF = Path(__file__).resolve().parent.parent
PROPS = "C01 C02 C03 C05 C06 C07 C08 C09 C10 C11 C12 C13 C14 C15 C16 C17 C18".split()
cand, rnd = Path(sys.argv[1]).resolve(), int(sys.argv[2])
items = sorted(p.parent for p in cand.glob("*/patch.diff"))
if len(sys.argv) > 3:
    items = [i for i in items if i.name in sys.argv[3:]]
head = subprocess.run(["git", "-C", "/repo", "rev-parse", "HEAD"], capture_output=True, text=True).stdout.strip()
ORIGIN = {3: "written by an independent sub-agent that saw only the property text and a scratch worktree of /repo (nothing from /verif); "
             "round 3 excluded the mechanisms of rounds 1 and 2 and asked for regressions hidden behind indirection or composition",
          4: "written by an independent sub-agent that saw only the property text and a scratch worktree of /repo (nothing from /verif); "
             "round 4 asked for regressions that need a specific input, value class or history of operations to show (data- and "
             "history-dependent), excluding the mechanisms of rounds 1-3",
          5: "written by an independent sub-agent that saw only the property text and a scratch worktree of /repo (nothing from /verif); "
             "round 5 asked for regressions that follow from language-level corner semantics of Python, re, pydantic v1 or sly (expression "
             "syntax of the generated text, dunder protocols, Unicode classes and regex flags, number conversions, the typing cache, "
             "object identity, copy/pickle), excluding the mechanisms of rounds 1-4",
          6: "written by an independent sub-agent that saw only the property text and a scratch worktree of /repo (nothing from /verif); round 6 asked for feature work (new parameters, methods, options, validation, logging, plug-in points) that is correct for what it advertises but breaks the property for existing usage in a corner, excluding the mechanisms of rounds 1-5",
          7: "written by an independent sub-agent that saw only the property text and a scratch worktree of /repo (nothing from /verif); round 7 asked for well-meant fixes and compatibility work that repair a genuine quirk of the code but overshoot or have a blind spot, excluding the mechanisms of rounds 1-6",
          8: "written by an independent sub-agent that saw only the property text and a scratch worktree of /repo (nothing from /verif); round 8 asked for clean-up and modernisation work in which the thing removed or replaced was load-bearing in a way that is not visible where it stands, excluding the mechanisms of rounds 1-7",
          9: "written by an independent sub-agent that saw only the property text and a scratch worktree of /repo (nothing from /verif); round 9 asked for changes made of two or more cooperating edits at different sites (functions, modules, layers), each behaviour-preserving or harmless alone, that break the property only in combination, or for a fault at a particular point of a multi-step operation, excluding the mechanisms of rounds 1-8"}


def sh(cmd, cwd, env=None):
    r = subprocess.run(cmd, shell=True, cwd=cwd, capture_output=True, text=True, env=env, timeout=2400)
    return r.returncode, (r.stdout + r.stderr)[-1500:]


def one(d):
    wt = tempfile.mkdtemp(prefix="pyabconf_")
    os.rmdir(wt)
    conf = {"repo_head": head, "how": "tools/promote_mutants.py: scratch git worktree of /repo HEAD under the system temp dir; demo.py on "
            "the clean tree; git apply patch.diff; full pytest suite; demo.py again; worktree removed"}
    try:
        sh(f"git -C /repo worktree add -q --detach {wt} HEAD", "/")
        env = dict(os.environ, PYTHONPATH=f"{wt}/src")
        demo = (d / "demo.py").resolve()
        conf["demo_on_clean_tree_rc"], _ = sh(f"/venv/bin/python {demo}", wt, env)
        arc, _ = sh(f"git apply {(d / 'patch.diff').resolve()}", wt)
        _, out = sh("/venv/bin/python -m pytest -q -p no:cacheprovider -n 4 2>&1 | tail -3", wt, env)
        conf["tests_with_patch"] = out.strip().splitlines()[-1] if out.strip() else ""
        conf["demo_with_patch_rc"], _ = sh(f"/venv/bin/python {demo}", wt, env)
        ok = conf["demo_on_clean_tree_rc"] == 0 and arc == 0 and "59 passed" in out and conf["demo_with_patch_rc"] != 0
    finally:
        sh(f"git -C /repo worktree remove --force {wt}", "/")
        shutil.rmtree(wt, ignore_errors=True)
    # checks on a scratch copy
    tmp = Path(tempfile.mkdtemp(prefix="pyabmat_"))
    fired, errs, first = [], [], {}
    try:
        subprocess.run(f"git -C /repo archive HEAD src | tar -x -C {tmp}", shell=True, check=True)
        subprocess.run(["git", "init", "-q"], cwd=tmp)
        subprocess.run(["git", "apply", str((d / "patch.diff").resolve())], cwd=tmp, check=True)
        env = dict(os.environ, PYAB_VERIF_EVIDENCE_DIR=str(tmp / "ev"))
        for p in PROPS:
            o = subprocess.run([str(VERIF / "check"), p, "--root", str(tmp)], capture_output=True, text=True, env=env, cwd=VERIF)
            line = next((l for l in o.stdout.splitlines() if l.startswith(("FAIL", "ANALYSIS-ERROR"))), "")
            if o.returncode == 1:
                fired.append(p)
                first[p] = line[:400]
            elif o.returncode == 2:
                errs.append(p)
                first[p] = line[:400]
    finally:
        shutil.rmtree(tmp, ignore_errors=True)
    return d, ok, conf, fired, errs, first


with ThreadPoolExecutor(8) as ex:
    for d, ok, conf, fired, errs, first in ex.map(one, items):
        prop = d.name.split("-")[0]
        if not ok:
            print(d.name, "NOT CONFIRMED", conf, flush=True)
            continue
        notes = (d / "notes.md").read_text() if (d / "notes.md").exists() else ""
        m = re.search(r"(?im)^#+\s*(what (it|is) need(s|ed)[^\n]*|needs? to manifest[^\n]*|trigger[^\n]*)\n+(.+?)(\n#|\Z)", notes, re.S)
        need = " ".join(m.group(5).split())[:400] if m else " ".join(notes.split())[:300]
        meta = {"id": d.name, "breaks_property": prop, "round": rnd, "origin": ORIGIN.get(rnd, f"round {rnd}"),
                "needs_to_manifest": need, "confirmed_by_me": conf, "detected_by_checks": fired, "analysis_error_in_checks": errs,
                "first_report": first}
        if prop not in fired:
            if prop in errs:
                meta["selftest_expect_rc"] = 2
                meta["note"] = ("the property's check answers ANALYSIS-ERROR (exit 2): the change replaces an idiom the analyser models "
                                "(see first_report); that is an alarm, not a verdict")
            elif fired:
                meta["selftest_expect"] = fired[:1]
                meta["note"] = ("not detected under its own property; detected under the property listed in selftest_expect "
                                "(see DESIGN.md section 6 for the reason)")
        dest = VERIF / "seeded" / d.name
        if dest.exists():
            shutil.rmtree(dest)
        shutil.copytree(d, dest)
        (dest / "meta.json").write_text(json.dumps(meta, indent=1) + "\n")
        print(d.name, "CONFIRMED own=" + ("1" if prop in fired else "2" if prop in errs else "0"), "fired", fired, "errors", errs, flush=True)
subprocess.run("git -C /repo worktree prune", shell=True)

"""Run every check against every patch under <dir>/*/*/patch.diff (or <dir>/*/patch.diff) on scratch
copies of /repo's src; prints which checks fire.  usage: python3 tools/matrix.py <dir> [name-filter...]"""
import os, shutil, subprocess, sys, tempfile
from concurrent.futures import ThreadPoolExecutor
from pathlib import Path

VERIF = Path(__file__).resolve().parent.parent
base = Path(sys.argv[1])
PROPS = "C01 C02 C03 C05 C06 C07 C08 C09 C10 C11 C12 C13 C14 C15 C16 C17 C18".split()
items = sorted(set(p.parent for p in list(base.glob("*/*/patch.diff")) + list(base.glob("*/patch.diff"))))
if len(sys.argv) > 2:
    items = [i for i in items if any(f in str(i) for f in sys.argv[2:])]


def one(d):
    tmp = Path(tempfile.mkdtemp(prefix="pyabmat_"))
    try:
        subprocess.run(f"git -C /repo archive HEAD src | tar -x -C {tmp}", shell=True, check=True)
        subprocess.run(["git", "init", "-q"], cwd=tmp)
        r = subprocess.run(["git", "apply", str((d / "patch.diff").resolve())], cwd=tmp, capture_output=True, text=True)
        if r.returncode:
            return d, {"apply": r.stderr[:200]}
        res = {}
        env = dict(os.environ, PYAB_VERIF_EVIDENCE_DIR=str(tmp / "ev"))
        for p in PROPS:
            o = subprocess.run([str(VERIF / "check"), p, "--root", str(tmp)], capture_output=True, text=True, env=env, cwd=VERIF)
            fails = [l for l in o.stdout.splitlines() if l.startswith(("FAIL", "ANALYSIS-ERROR"))]
            res[p] = (o.returncode, fails[:1])
        return d, res
    finally:
        shutil.rmtree(tmp, ignore_errors=True)


with ThreadPoolExecutor(8) as ex:
    for d, res in ex.map(one, items):
        name = str(d.relative_to(base))
        print(f"=== {name}")
        if "apply" in res:
            print("   APPLY FAILED", res["apply"])
            continue
        own = name.split("/")[0].split("-")[0]
        hit = {p: r for p, r in res.items() if r[0] != 0}
        print("   own:", res.get(own, ("n/a",))[0], " others firing:", {p: r[0] for p, r in hit.items() if p != own})
        for p, (rc, fails) in hit.items():
            for f in fails:
                print(f"     [{p} rc={rc}] {f[:260]}")

"""Re-run all 17 checks on stored seeded mutants and refresh what their meta.json records about detection
(detected_by_checks, analysis_error_in_checks, first_report, selftest expectations).  usage: python3 tools/refresh_meta.py <id>..."""
import json, os, shutil, subprocess, sys, tempfile
from pathlib import Path

VERIF = Path(__file__).resolve().parent.parent
PROPS = "C01 C02 C03 C05 C06 C07 C08 C09 C10 C11 C12 C13 C14 C15 C16 C17 C18".split()
for mid in sys.argv[1:]:
    d = VERIF / "seeded" / mid
    meta = json.loads((d / "meta.json").read_text())
    prop = meta["breaks_property"]
    tmp = Path(tempfile.mkdtemp(prefix="pyabmat_"))
    fired, errs, first = [], [], {}
    try:
        subprocess.run(f"git -C /repo archive HEAD src | tar -x -C {tmp}", shell=True, check=True)
        subprocess.run(["git", "init", "-q"], cwd=tmp)
        subprocess.run(["git", "apply", str(d / "patch.diff")], cwd=tmp, check=True)
        env = dict(os.environ, PYAB_VERIF_EVIDENCE_DIR=str(tmp / "ev"))
        for p in PROPS:
            o = subprocess.run([str(VERIF / "check"), p, "--root", str(tmp)], capture_output=True, text=True, env=env, cwd=VERIF)
            line = next((l for l in o.stdout.splitlines() if l.startswith(("FAIL", "ANALYSIS-ERROR"))), "")
            if o.returncode == 1:
                fired.append(p)
                first[p] = line[:400]
            elif o.returncode == 2:
                errs.append(p)
                first[p] = line[:400]
    finally:
        shutil.rmtree(tmp, ignore_errors=True)
    before = (meta.get("detected_by_checks"), meta.get("analysis_error_in_checks"))
    meta["detected_by_checks"], meta["analysis_error_in_checks"], meta["first_report"] = fired, errs, first
    for k in ("selftest_expect_rc", "selftest_expect", "note"):
        meta.pop(k, None)
    if prop not in fired:
        if prop in errs:
            meta["selftest_expect_rc"] = 2
            meta["note"] = ("the property's check answers ANALYSIS-ERROR (exit 2): the change replaces an idiom the analyser models "
                            "(see first_report); that is an alarm, not a verdict")
        elif fired:
            meta["selftest_expect"] = fired[:1]
            meta["note"] = "not detected under its own property; detected under the property listed in selftest_expect (see DESIGN.md section 6)"
        else:
            meta["selftest_expect"] = []
            meta["note"] = "not detected by any check (see DESIGN.md section 6 for the reason)"
    meta.setdefault("history", []) if isinstance(meta.get("history"), list) else None
    (d / "meta.json").write_text(json.dumps(meta, indent=1) + "\n")
    print(mid, "own=" + ("1" if prop in fired else "2" if prop in errs else "0"), "fired", fired, "errors", errs, "(was", before, ")")

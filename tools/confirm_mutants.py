"""Confirm seeded mutants independently of the checks: in a scratch git worktree of /repo HEAD
(under the system temp dir, removed afterwards) demo.py passes on the clean tree; with patch.diff
applied the full test suite passes and demo.py fails.  usage: python3 tools/confirm_mutants.py [ids...]"""
import json, os, shutil, subprocess, sys, tempfile
from concurrent.futures import ThreadPoolExecutor
from pathlib import Path

VERIF = Path(__file__).resolve().parent.parent
items = sorted(p.parent for p in (VERIF / "seeded").glob("*/patch.diff"))
if len(sys.argv) > 1:
    items = [i for i in items if i.name in sys.argv[1:]]
head = subprocess.run(["git", "-C", "/repo", "rev-parse", "HEAD"], capture_output=True, text=True).stdout.strip()


def sh(cmd, cwd, env=None):
    r = subprocess.run(cmd, shell=True, cwd=cwd, capture_output=True, text=True, env=env, timeout=1800)
    return r.returncode, (r.stdout + r.stderr)[-1500:]


def one(d):
    wt = tempfile.mkdtemp(prefix="pyabconf_")
    os.rmdir(wt)
    res = {"id": d.name, "repo_head": head}
    try:
        sh(f"git -C /repo worktree add -q --detach {wt} HEAD", "/")
        env = dict(os.environ, PYTHONPATH=f"{wt}/src")
        demo = (d / "demo.py").resolve()
        res["demo_clean_rc"], _ = sh(f"/venv/bin/python {demo}", wt, env)
        res["apply_rc"], _ = sh(f"git apply {(d / 'patch.diff').resolve()}", wt)
        _, out = sh("/venv/bin/python -m pytest -q -p no:cacheprovider -n 4 2>&1 | tail -3", wt, env)
        res["tests_tail"] = out.strip().splitlines()[-1] if out.strip() else ""
        res["demo_patched_rc"], _ = sh(f"/venv/bin/python {demo}", wt, env)
        res["confirmed"] = res["demo_clean_rc"] == 0 and res["apply_rc"] == 0 and "59 passed" in out and res["demo_patched_rc"] != 0
    finally:
        sh(f"git -C /repo worktree remove --force {wt}", "/")
        shutil.rmtree(wt, ignore_errors=True)
    return res


with ThreadPoolExecutor(4) as ex:
    for res in ex.map(one, items):
        print(res["id"], "CONFIRMED" if res["confirmed"] else "NOT CONFIRMED", res, flush=True)
subprocess.run("git -C /repo worktree prune", shell=True)

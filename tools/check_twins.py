import subprocess, os, tempfile, shutil, json, sys
from pathlib import Path
def sh(c, cwd, env=None):
    r = subprocess.run(c, shell=True, cwd=cwd, capture_output=True, text=True, env=env); return r.returncode, r.stdout + r.stderr
base = None
for d in [None] + [x for x in sorted(Path('/verif/selftest/twins').glob('*/')) if len(sys.argv) < 2 or any(a in x.name for a in sys.argv[1:])]:
    wt = tempfile.mkdtemp(prefix='pyabtw_'); os.rmdir(wt)
    sh(f'git -C /repo worktree add -q --detach {wt} HEAD', '/')
    env = dict(os.environ, PYTHONPATH=f'{wt}/src')
    try:
        if d is not None:
            rc, o = sh(f'git apply {d}/patch.diff', wt)
            assert rc == 0, o
            rc, o = sh('/venv/bin/python -m pytest -q -p no:cacheprovider -n 4 2>&1 | tail -1', wt, env)
            tests = o.strip()
        rc, o = sh(f'/venv/bin/python {Path(__file__).resolve().parent}/twin_equivalence_probe.py', wt, env)
        if d is None:
            base = o; print('base rc', rc, len(o))
        else:
            import re
            norm = lambda s: s
            same = (o == base)
            if not same:
                a, b = json.loads(base), json.loads(o)
                diff = [k for k in a if a[k] != b.get(k)]
                # generated code text may differ textually for template twins: compare ignoring code keys
                same_noncode = all(not k.startswith('code') for k in diff) is False and all(k.startswith('code') for k in diff)
                print(d.name, tests, 'DIFF in', diff[:5], '(only generated text differs)' if same_noncode else 'BEHAVIOUR DIFFERS')
            else:
                print(d.name, tests, 'identical')
    finally:
        sh(f'git -C /repo worktree remove --force {wt}', '/'); shutil.rmtree(wt, ignore_errors=True)

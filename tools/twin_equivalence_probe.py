import json, sys, itertools
from pyab_experiment.experiment_evaluator import ExperimentEvaluator
from pyab_experiment.utils.wraper_functions import generate_code
from pyab_experiment.binning.binning import deterministic_choice, deterministic_proba
from pyab_experiment.utils.stats import confidence_interval, probit
out = {}
progs = [
 'def e{ salt: "s1" splitters: uid, country if age >= 21 and country in ("US","CA") { return "a" weighted 1, "b" weighted 2 } else if not (age < 5 or x != -3) { return 1 weighted 1.5, 2.5 weighted 1 } else { return "d" weighted 1 } }',
 'def f{ splitters: a if order_id in (1,(2,3),y) { return "A" weighted 1 } }',
 'def g{ /* c */ return "A" weighted 1, /* x */ "B" weighted 3 // t\n }',
]
for i, p in enumerate(progs):
    e = ExperimentEvaluator(p)
    for uid in range(40):
        kw = dict(uid=uid, country=["US", "FR"][uid % 2], age=uid, x=-3 if uid % 3 else 1, a=uid, order_id=(2, 3) if uid % 2 else uid, y=uid)
        try:
            r = e(**kw)
        except Exception as ex:
            r = type(ex).__name__
        if i == 2:
            r = "g"  # random (no splitters)
        out[f"{i}:{uid}"] = repr(r)
    out[f"code{i}"] = generate_code(p, True) + generate_code(p, False)
for bad in ['def e{ return "A" weighted }', 'junk def e{ return "A" weighted 1 }', 'def e{ if a =< 1 { return "A" weighted 1 } }']:
    try:
        ExperimentEvaluator(bad); out[bad] = "compiled"
    except Exception as ex:
        out[bad] = type(ex).__name__
for k in ["a", "é", "", "12345"]:
    out["p" + k] = repr(deterministic_proba(k))
    out["c" + k] = repr(deterministic_choice(k, [1, 2, 3], [1, 0, 2])) + repr(deterministic_choice(k, "abc"))
for n, p, c, m in itertools.product([1, 10, 1000], [0, .3, 1], [.5, .95], ["wald", "Agresti-Coull"]):
    out[f"ci{n}{p}{c}{m}"] = repr(tuple(round(v, 12) for v in confidence_interval(n, p, c, m)))
try:
    confidence_interval(method="x"); out["cix"] = "ok"
except Exception as ex:
    out["cix"] = type(ex).__name__
out["probit"] = repr([round(probit(a / 10), 12) for a in range(1, 10)])
json.dump(out, sys.stdout, sort_keys=True)
